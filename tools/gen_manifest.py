#!/usr/bin/env python3
"""Regenerates /verif/MANIFEST.json from the table below (kept in one place so the
manifest stays valid while properties are added)."""
import json, os, subprocess

CHECKS = {
 "C01": dict(
  technique="static analysis: path-sensitive property simulation over go/ssa (reply/hand-over effect counting with the done flag and request mutex as tracked state), interprocedural lockset + lock-order graph, call-graph who-may-call",
  text="Structural necessary conditions of 'exactly one response', decided on every path of the resolved program: each activation of an unanswered request ends in exactly one reply (done set, mutex held) or one successful hand-over to a backend; each arm of the client frame handler answers once; a matched backend reply is delivered to its request exactly once; a dying backend connection marks itself closing, then notifies every pending request; the retry loop has no cycle that does not advance the query plan; the lock-order graph is acyclic. This is the code's own argument for the property, checked for all paths rather than sampled; it is not an execution of schedules.",
  note="Trusted: go/types, go/ssa, VTA call graph (x/tools v0.29.0); library and stdlib semantics (sync.Map, channels); object-insensitive treatment of the request's fields. Not covered: scheduling, network, backend behaviour; the residual window in ClientConn.Send where a request stays registered after its write failed.",
  ref="DESIGN.md §4 C01"),
 "C04": dict(
  technique="static analysis: property simulation of the request's retry decision structure (type-switch arms x idempotency check x retry effect), provenance of stored prepared metadata, dominance guards",
  text="Structural necessary conditions of 'no re-execution of non-idempotent requests', on every path: the error-result handler retries only in the read-timeout/unavailable/bootstrapping arms or after a positive idempotency check; connection loss re-sends only after a positive check; the check answers true only in state isIdempotent reached through a classifier verdict on that path; a batch is idempotent only if every child was classified idempotent; unknown prepared ids are not idempotent and stored verdicts come from the classifier with err==nil keyed by the backend's id; only PREPARE (and graph with the option) starts idempotent.",
  note="Trusted: the classifier's verdict itself (C06), library message types, VTA call graph. Not covered: what a backend applied; custom RetryPolicy implementations.",
  ref="DESIGN.md §4 C04"),
 "C05": dict(
  technique="static analysis: constant folding of the default policy's guards over a finite partition of inputs (decision table extraction), property simulation of decision->action mapping and of loop progress in the host walk",
  text="The four decision functions of the default retry policy are compared with the documented table on every cell of a finite partition of their inputs (exhaustive because they only compare inputs with constants/each other); each error kind consults the documented policy method; RetryNext/RetrySame/ReturnError map to the documented action with one count increment; the host walk consumes each planned host (no skipped host, no cycle without QueryPlan.Next), ends in exactly one reply or hand-over, and the plan's Next is bounded by len(hosts).",
  note="Trusted: library message field semantics. Not covered: attempt sequences as executions (which host answers), numeric attempt bounds beyond the structural progress argument, custom policies.",
  ref="DESIGN.md §4 C05"),
 "C15": dict(
  technique="static analysis: structural rules over SSA (guard dominance, increment counting by path simulation, index-expression shape), copy-on-write taint of the published slice, atomic/lock discipline inventory",
  text="Query plan structure decided statically: Next returns a host only under index < len(hosts), increments index exactly once per returned host and never on exhaustion, picks hosts[(offset+index)%len]; NewQueryPlan snapshots the published slice and takes its offset by an atomic add; the published slice is never written through (fresh slice + atomic.Value.Store under the mutex), Remove drops the host with the matching key; counter and slice only accessed atomically.",
  note="Not covered: fairness counts, uint32 wrap, schedules; only the discipline that makes concurrent use safe is decided.",
  ref="DESIGN.md §4 C15"),
 "C07": dict(
  technique="static analysis: field-write inventory with dominance guards and value provenance, struct-literal argument agreement, property simulation of the pooled-connection set-up, guarded-by lockset",
  text="Structural necessary conditions decided on every path: the connection's keyspace is written only in the USE arm after the keyspace session was created, with the statement's raw identifier text, and a failed USE writes nothing and answers one error; forwarding selects the session with (frame version, connection keyspace, connection compression) and the session table key / SessionConfig / backend handshake use exactly those three values; a pooled connection is returned only after a successful handshake and USE of the session keyspace and only such connections fill pool slots; the SET_KEYSPACE reply is Identifier.ID(); the session table is written under the exclusive lock.",
  note="Trusted: library frame/message types, VTA. Not covered: what a backend does with USE, scheduling of concurrent USEs.",
  ref="DESIGN.md §4 C07"),
 "C09": dict(
  technique="static analysis: abstract execution (property simulation) of the interception decision over all consistent assignments of its atoms, constant-table extraction, routing effect counting, identifier-comparison inventory",
  text="The select interception decision is abstractly executed for all 12 consistent assignments of (current keyspace is system, qualifier is system, unqualified, table is a system table): handled is reachable iff system table and keyspace system by qualifier or, if unqualified, by current keyspace. The table list is the documented set; IsQueryHandled can answer handled only for SELECT/USE; QUERY/PREPARE/EXECUTE route exclusively (handled => one local answer, never forwarded; else forwarded once); identifiers are compared only through Identifier.equal with CQL case/quote rules; the current keyspace keeps the USE statement's quoting.",
  note="Trusted: the generated lexer's tokenisation. Not covered: statement text beyond the decision structure.",
  ref="DESIGN.md §4 C09"),
 "C11": dict(
  technique="static analysis: codec layout signatures by property simulation per protocol version (ordered primitive read/write/length calls with struct-field provenance), folded version predicates, error-discipline simulation",
  text="For each partial codec (QUERY, EXECUTE, BATCH), each of Decode/Encode/EncodedLength and each version in {v3,v4,v5,DSEv1,DSEv2}, the ordered layout signature of the leading fields (primitive kind + struct field, loop bodies as sets of alternatives) equals the native-protocol layout, hence the three methods agree with each other and with the reference layout; every failed primitive read/write yields a non-nil error and no message; the value skipper accepts null/unset/empty lengths; the codecs are registered for their opcodes in all three raw codecs.",
  note="Trusted: primitive read/write helpers of the protocol library. Not covered: byte equality for all messages, the opaque remainder.",
  ref="DESIGN.md §4 C11"),
 "C12": dict(
  technique="static analysis: property simulation of the override decision with field-write inventory, provenance of the re-encoded frame and of the isSelect flag, codec layout signatures",
  text="The request frame is forwarded as received unless it is a non-SELECT partial QUERY/EXECUTE/BATCH whose consistency is in the configured list (pure membership test, empty list => never); then the only write is Consistency := configured override; the re-encoded frame reuses the client's header and the decoded body object and is produced by ConvertToRawFrame (length = bytes written), never as a frame.Frame; isSelect comes from the parsed statement / prepared metadata / false for BATCH; the partial codecs that re-encode have the protocol layout for every version.",
  note="Trusted: library ConvertToRawFrame/EncodeBody. Not covered: backend interpretation of the consistency.",
  ref="DESIGN.md §4 C12"),
 "C13": dict(
  technique="static analysis: property simulation of the frame handler with the version gate folded over all known versions x configurable maxima, effect counting, dominance-guarded field-write inventory, constant-table comparison",
  text="OPTIONS/STARTUP/REGISTER each produce exactly one locally built SUPPORTED/READY/ERROR and never reach a session or backend; for every known version v and maximum m the frame is rejected iff v>m or v<3, rejection = one ProtocolError naming the version, no body decoding, no forwarding, handler returns nil; codec/compression of a connection are written only at construction and in the STARTUP arm under a successful lower-cased table lookup; SUPPORTED advertises exactly the table's keys.",
  note="Not covered: unknown version bytes (library decoder), compression algorithms, frame ordering.",
  ref="DESIGN.md §4 C13"),
 "C18": dict(
  technique="static analysis: interprocedural must-lockset (guarded-by table with modes and frozen exceptions), type/atomic discipline inventory, write-once inventory, copy-on-write taint",
  text="The lock discipline the code declares is decided for every access: 15 guarded fields are only touched with their lock held (writes exclusively) outside construction (recognised by a pre-publication predicate) and two reasoned exceptions; shared registries keep their concurrency-safe types and counters are sync/atomic-only; request fields read without the mutex are written only at construction; ClientConn.codec only through atomic.Value; the load balancer's published slice is never written through.",
  note="This is not a happens-before analysis: never-locked state (client.codec/keyspace, Cluster state confined to one goroutine) and ordering by channels/WaitGroups are not decided; a dynamic race detector is the tool for those.",
  ref="DESIGN.md §4 C18"),
 "C02": dict(
  technique="static analysis: ownership inventories (who may access the pending table / free list / stream-id header field), structural checks of the allocate/release protocol on SSA (select/send/LoadAndDelete pairing, dominance), value provenance of stream ids and of frames handed to writers",
  text="The ownership discipline that makes mis-routing impossible is decided: only pendingRequests touches the pending table and free list; an id taken from the free list is the key of the stored request and the returned id, it goes back only when LoadAndDelete removed that entry, and the list is filled with 0..max-1 at capacity max; the backend stream id is written into a request's frame only by the sender object in the function that encodes it, from the id allocated for that send; a request's client, stream and version come from the frame it was built from and every reply uses them; re-prepare frames are private copies.",
  note="Trusted: sync.Map and channel semantics. Not covered: interleavings themselves.",
  ref="DESIGN.md §4 C02"),
 "C03": dict(
  technique="static analysis: field-write inventory over frame structures, provenance of the encoded frame objects, struct-literal argument agreement for session selection, plus the override-guard simulation and codec layout signatures shared with C12/C11",
  text="Decided: nothing in proxy/proxycore writes body bytes or version/flags/opcode/direction of an existing frame, stream ids only in the backend sender and the reply function; a request hands the writer exactly what the override decision returned (the received raw frame unless an override applies) and raw frames are written with EncodeRawFrame; the backend's raw reply object is what is written to the client; the backend session has the client's version and compression; the single re-encoding path keeps header and decoded body and uses codecs with the protocol layout.",
  note="Trusted: library frame codecs and compressors. Byte equality itself is not executed; ownership and provenance are decided.",
  ref="DESIGN.md §4 C03"),
 "C08": dict(
  technique="static analysis: sibling struct-literal agreement (cache wiring), property simulation of the backend reply handler with opcode bound (effect ordering), key-function agreement, folded re-prepare decision, dominance-guarded byte-access inventory",
  text="Decided: every pooled connection is created with the shared prepared cache (all connPool literals, connect(), ConnectClient, both proxy session configs, both pool creations of a session); on a connection with a cache every RESULT passes the cache update before delivery and every ERROR passes the UNPREPARED interception; store and load use the same key function of the backend's id; a re-prepare's outcome re-executes (error => next host, else same host); raw body bytes are read directly only when the header says they are not compressed; re-prepare frames are private copies.",
  note="Not covered: backend prepared state, LRU eviction, version/compression of the replayed PREPARE frame.",
  ref="DESIGN.md §4 C08"),
 "C06": dict(
  technique="static analysis: assume-guarantee property simulation over the recursive classifier family (err=>false, false-is-sticky), atom-assignment simulation of the function rule, constant folding of the term-type rules over all term types, loop progress / end-of-input termination by simulation, bounds-guard panic inventory, save/restore field agreement of the lexer",
  text="Structural necessary conditions only (the verdict for every statement of the grammar is NOT decided): every classifier function returns false with an error and returns false once any element on the path was classified non-idempotent; now()/uuid() unqualified or in keyspace system is never idempotent and the table contains both; additive update operations are idempotent only for set/map/udt and tuple literals and delete-by-element rules hold for every term type; INSERT/UPDATE/DELETE look for IF up to the terminator and return false when seen; every parser loop consumes a token per iteration and exits at end of input; no panic site is reachable from the entry points; rewind() restores everything next() writes; identifiers are compared with CQL case/quote rules.",
  note="Trusted: the ragel-generated scanner function. Not covered: soundness of the verdict over all CQL statements, lexer invariance under whitespace/terminators (inputs quantifier: out of reach of this technique).",
  ref="DESIGN.md §4 C06"),
 "C17": dict(
  technique="static analysis: call-graph reachability from the network-facing entry points + panic-site inventory with a bound/typed-container guard analysis and a frozen reasoned table; nil-result/nil-store rules; channel-send discipline; error-flow ownership",
  text="Every instruction that can panic or exit (explicit panic, unchecked type assertion, index/slice without established bound, integer division by a variable, Fatal/os.Exit) in the repository functions reachable (through library callbacks too) from the entry points for client frames, backend frames/events, connection loss and topology events is either discharged by the guard analysis (dominating length tests, range indices, typed sync.Map/atomic.Value containers, sort.Slice callbacks) or one of the reviewed sites listed with a reason; (nil, nil)-returning functions are nil-tested by callers; only successfully created pools are stored; a receiver error closes only its own connection and decode errors are returned; every channel send is non-blocking, has a closed/done alternative, or is reasoned; the retry loop cannot spin.",
  note="Trusted: library decoders, the generated scanner. Not covered: memory exhaustion, liveness in general, fuzzing-style input coverage (inputs quantifier); a frozen-table site whose guard is later removed is not re-derived.",
  ref="DESIGN.md §4 C17"),
 "C20": dict(
  technique="static analysis: constant folding of the name->value functions over every label in the source (table extraction), property simulation of Run() with option values bound around their validity boundaries, report-then-stop effect rule, ordering rule (validate after merge), error-chain simulation",
  text="Every label of parseProtocolVersion and clWrapper.UnmarshalText is folded: documented spellings select the constant they name, distinct names distinct values, labels are lower case under a lower-cased input, unknown names are refused (exhaustive over the finite label sets). Run() is simulated for 36 boundary cells (heartbeat vs idle, connection count, all version x max-version pairs, unknown names): exactly the inconsistent ones are refused before a proxy is built; after any reported configuration error no path builds/starts the proxy and the exit status is non-zero; options are tested only after the configuration file was merged; buildNodes refuses the three invalid peer configurations and its error reaches the exit status.",
  note="Trusted: kong and yaml parsing. Not covered: option values other than the folded cells, environment handling.",
  ref="DESIGN.md §4 C20"),
 "C14": dict(
  technique="static analysis: who-may-call and dominance-guarded mutator inventory of the event registry, structural fan-out rules, typestate simulation of the cluster control loop (every received event reaches the type dispatch), subscription chain checks",
  text="Decided: clients enter the event registry only from the REGISTER arm under a SCHEMA_CHANGE test with the registering connection, and leave it when their connection closes; Proxy.OnEvent writes only for SchemaChangeEvent, one frame per ranged client on stream -1 with the event's message, iteration never stops early; in the cluster's control loop no path drops a received event before the dispatch on its type, a schema change notifies each listener once with that message, topology/status events notify nobody; the proxy is registered as listener exactly once, control connections have the cluster as handler and register for all three event kinds on both handshake paths; backend EVENT frames go to the handler, never to pending requests.",
  note="Not covered: interleavings of events with connects/disconnects, TCP delivery.",
  ref="DESIGN.md §4 C14"),
 "C16": dict(
  technique="static analysis: typestate simulation of both maintenance loops (pending-flag => timer armed invariant at the loop header, Reset after and only after a successful reconnect, delay provenance), dominance/clamp rule on the back-off function, structural rules on mergeHosts / Session.OnEvent / reconnect, who-may-call + guard rules on the outage clock and readiness handler",
  text="Structural parts only (timing and numeric bounds are not decided): NextDelay returns maxDelay or a value compared with and capped by it, Reset zeroes the attempts; both maintenance loops take reconnect delays from the policy, reset it after and only after success, and never have a pending flag set while its timer is not armed; topology and status-UP events arm a refresh which re-reads hosts; mergeHosts emits Add for new and Remove for vanished keys and adopts the list; sessions create/cancel pools accordingly; fail-over rotates hosts; the outage clock starts only where the control connection is found closed and is cleared only after a successful connect, OutageDuration is zero iff cleared, readiness is 200 iff outage < timeout; only live pools are stored.",
  note="Not covered: 'within the refresh window', heartbeat/idle timing, lower bound and overflow of the back-off arithmetic (numeric/timing; say so rather than test).",
  ref="DESIGN.md §4 C16"),
 "C19": dict(
  technique="static analysis: path simulation (skip-verify paired with a callback), value-provenance rules on the verification callback (leaf, roots, DNS name, intermediates, time), struct-literal rules on the bundle config, Clone-only use inventory, path simulation of Connect with the TLS decision bound",
  text="Decided: InsecureSkipVerify is set only where a VerifyPeerCertificate callback is installed on every path; that callback can return nil only as the result of x509 Verify on the parsed leaf with Roots from a RootCAs pool, DNSName = bundle host, Intermediates only from the presented chain, CurrentTime zero or time.Now() evaluated inside the callback, parse errors returned; the per-node SNI is the serverName parameter (contact point / host id); the bundle config has checked bundle-CA roots, the bundle key pair and ServerName = bundle host and is only ever Clone()d; Connect hands only a handshaken tls.Client to the CQL connection on TLS endpoints and aborts on a handshake error.",
  note="Trusted: crypto/x509, crypto/tls, the clock. Not covered: certificate contents.",
  ref="DESIGN.md §4 C19"),
 "C10": dict(
  technique="static analysis: table agreement between advertised column metadata (syntax tree + type info) and value producers (resolved by role on go/ssa: the lookups handed to FilterValues and the precomputed row), canonical-name provenance, value-provenance rules on node literals and address comparison, selector cardinality shapes, structural row-construction rules, constant-mask check, length-abstraction simulation of buildNodes",
  text="Structural parts only (token arithmetic, value equality with the configuration and cross-proxy agreement are numeric/run-time facts and are not decided): every advertised column of system.local/peers (plain and DSE) has a producer whose encoded datatype is wire-compatible with the advertised type; the parsed table name is the case-folded identifier and tables/arms are keyed lower-case; every selector yields as many values as columns; system.local is one row, system.peers one row per non-local node with count = nodes-1, self-entries in the peer list are dropped; host ids are MD5 name-based UUIDs of the node's own address with version-3/variant bits; when tokens are calculated no path adds a peer without running the token assignment.",
  note="Not covered: evenly spaced/distinct/ordered tokens, values equal to configuration, agreement between independently started proxies, count() values.",
  ref="DESIGN.md §4 C10"),
}

NOT_YET = "check not built yet in this round (see DESIGN.md §4 for the planned structural rules)"

def main():
    props = [json.loads(l)["id"] for l in open("/verif/properties.jsonl")]
    checks, na = [], []
    for pid in props:
        c = CHECKS.get(pid)
        if not c:
            na.append({"property_id": pid, "reason": NOT_APPLICABLE.get(pid, NOT_YET)})
            continue
        c = dict(c)
        c["text"] = c["text"] + ADDENDA.get(pid, "") + ADDENDA3.get(pid, "") + ADDENDA4.get(pid, "") + ADDENDA5.get(pid, "") + ADDENDA7.get(pid, "")
        if pid in NOTE_FIXES:
            a, b = NOTE_FIXES[pid]
            c["note"] = c["note"].replace(a, b)
        checks.append({
            "property_id": pid,
            "quick_cmd": f"./check.sh {pid} quick",
            "thorough_cmd": f"./check.sh {pid} thorough",
            "evidence_file": f"/verif/evidence/{pid}.json",
            "replay_cmd_template": "cat {path}",
            "engine": "cqlverif",
            "level_claimed": {"category": "other", "text": c["text"], "design_ref": c["ref"]},
            "level_note": c["note"],
            "technique": c["technique"],
        })
    m = {
        "version": 1,
        "setup_cmd": "cd /verif/checker && env -u GOSUMDB -u GOTOOLCHAIN -u GOWORK GOFLAGS=-mod=mod GOPROXY=off go build -o /verif/bin/cqlverif .",
        "hooks": {
            "guard": "verif",
            "enable": "none: the checks are static analyses of the working tree, nothing is instrumented or executed",
            "baseline_off_cmd": "cd /repo && GOPROXY=off go test -vet=off -count=1 -timeout 25m ./...",
            "source_commits": [],
            "add_only": True,
        },
        "engines": [{
            "name": "cqlverif", "path": "/verif/checker",
            "serves_properties": [c["property_id"] for c in checks],
            "kind_free_text": "repository-specific static analyser (go/packages + go/ssa + VTA call graph): property simulation, lockset/lock-order, constant-table extraction, provenance and ownership inventories, codec layout signatures, panic inventory",
        }],
        "checks": checks,
        "not_applicable": na,
        "notes": "All claims are at level 'other': structural necessary conditions decided statically on every path of the resolved program. Genuine defects found on the pinned tree (44) were repaired in /repo with 'fix:' commits; one more (three call sites, C17) is recorded as a known finding; all are listed in /verif/known_findings.json.",
    }
    json.dump(m, open("/verif/MANIFEST.json", "w"), indent=1)
    print("MANIFEST.json:", len(checks), "checks,", len(na), "not applicable")


# second-generation rules (DESIGN.md section 4, "Rules added after the second round")
ADDENDA = {
 "C01": " Also decided: a same-host re-send consumes a per-request budget (bounded re-sends across activations); the hand-over function fails only if the request was neither queued nor left registered; the reply write either queues or has seen the connection closed; the closing notification claims an entry before notifying it.",
 "C02": " Also decided: nobody writes into the frame object a request hands out (the sender encodes a private copy carrying its stream id); a stream id is released only for a frame just received, after a failed write of that registration, or for a dead connection; at most one frame per request (shared with C01).",
 "C03": " Also decided: on the delivery path of a backend reply the proxy never substitutes a message of its own (except plan exhaustion in the host walk).",
 "C04": " Also decided: a failed hand-over left nothing queued or registered (so trying the next host is not a re-execution); prepared-statement metadata is stored before the PREPARED result is written to the client.",
 "C05": " Also decided: the retry counter is advanced only by policy decisions in the error-result handler; the plan's position sum cannot wrap within a traversal.",
 "C06": " Also decided: the entry points pass the statement text to the lexer only; every recursive cycle of the parser passes a depth guard.",
 "C07": " Also decided: a helper that builds the session key leaves keyspace, version and compression as given.",
 "C08": " Also decided: cached and replayed PREPARE frames are decoded and encoded again (plain in the cache; with the protocol version of the connection that reported UNPREPARED on replay).",
 "C09": " Also decided: the handled/not-handled decision is taken from tokens only (no tests on the raw statement text).",
 "C10": " Also decided: every node gets its token slot in the assignment loop; advertised column metadata is never written through; PREPARE and QUERY/EXECUTE resolve selectors against the same column tables (plain and DSE).",
 "C11": " Also decided: the frame body reader is only moved by reading (no computed Seek); undefined negative value lengths are rejected.",
 "C12": " Also decided: the re-encoding uses the client connection's own codec; prepared metadata is stored before the PREPARED result is delivered.",
 "C13": " Also decided: every lookup in a compression codec table lower-cases the name (client side and backend handshake agree).",
 "C14": " Also decided: each registered client gets a frame object of its own.",
 "C15": " Also decided: offset+index is summed wider than the counters; the rotating counter is only advanced by one; an announced host that is already listed is not listed twice.",
 "C16": " Also decided: a host announced again keeps its pool in service (the new pool is the one cancelled).",
 "C17": " Also decided: reachability walks through library callbacks (partial codecs included); slice-to-array conversions; the body reader's position invariant; bounded parser recursion; writes to a client's connection from goroutines serving other connections must be bounded (three call sites are recorded known findings).",
 "C18": " Also decided: a field locked in two functions is locked everywhere (fields outside the table too); no field store after an object was published to a shared registry; the client connection's codec only through atomic.Value; request fields read without the mutex have no late writes (by inventory, not by name).",
 "C20": " Also decided: consistency-level options are written only by the option parser and by copying literals (no re-defaulting on the zero value, which is ANY); no backend configured is refused (simulation cell).",
}
# third-generation rules (DESIGN.md section 4, "Rules added after the third round")
ADDENDA3 = {
 "C04": " The table of non-idempotent functions and its case/quote-aware membership test (shared with C06).",
 "C06": " The lexer's identifier text is read only where the current token is known to be an identifier (precondition propagated over the parser).",
 "C07": " A session is filed in the session table under the version, keyspace and compression it was connected with.",
 "C08": " The bound on re-executions after a re-prepare belongs to one host (compared with the current host or reset where it changes) and covers every prepared statement of a BATCH; an UNPREPARED reply for a cached statement never reaches the request.",
 "C10": " A peer without a data center gets the value the local node's data center is built from; node addresses are compared without lossy conversion; local and peers rows spell the address the same way for the host id; row values are produced from the table's columns.",
 "C12": " The configured override level is never re-defaulted (shared with C20); the re-encoded frame is returned only when the conversion succeeded.",
 "C14": " The hand-over of an event frame from the control connection's reader to the control loop cannot drop it.",
 "C17": " Value codecs of the library run under a recover; the frame of a failed re-encoding never reaches a writer; the answer to a system-table select is linear in the select list; every wait of the cluster's control loop takes new listeners.",
 "C18": " Entries of plain maps kept in fields of shared objects are written only under a mutex of the object, during construction, or when confined to the goroutine serving the owner.",
 "C19": " The root pool a bundle's CA is appended to is created for that bundle, never shared through a package variable.",
 "C20": " --max-protocol-version is what the per-frame version gate compares with (gate decided for every version x maximum, shared with C13).",
}

# fourth-generation rules (DESIGN.md section 4, "Rules added after the fourth round")
ADDENDA4 = {
 "C01": " A connection lost during a re-prepare moves the original request on to the next host (counted as a hand-over).",
 "C03": " The body of a received frame is a buffer of its own (never read into storage kept by the connection); the connection's codec and compression name change together, after validation (shared with C13).",
 "C04": " Prepared metadata is stored latest-wins; the IF scan of a DML statement looks at every token up to the terminator (shared with C06).",
 "C05": " The connection-loss handler consults idempotence and the plan for every error value (no early return for particular errors).",
 "C06": " The identifier text is read while its token is still the current one; the terminator set of the IF scan contains end of input (decided by evaluating the predicate).",
 "C09": " The keyspace of USE is stored as written (quotes kept); the table test is fed the identifier itself, never a transformed text; qualified names are read before the lexer advances (shared with C06).",
 "C10": " The local data center and address are those of the control connection's own system.local row / configured address (provenance), never taken from a host list or a cache shared between connections.",
 "C12": " The parser entry reports a SELECT statement for every text that starts with SELECT, parseable or not; a whole-struct re-default of the override is reported.",
 "C14": " A control connection that fails after its socket was opened is closed on that path.",
 "C15": " One publication of the host list per event.",
 "C16": " A connection is heartbeated with the protocol version its handshake negotiated; the idle timer is re-armed only by a SUPPORTED answer of that iteration.",
 "C17": " Every library decode of peer bytes (message codecs included) runs under a recover that returns an error; nothing that waits for the peer runs on the accept loop's goroutine; the term and cast parsers are depth-bounded.",
 "C18": " No write under a read lock; no unlocked write to a field of a shared object that another goroutine reads.",
}

# fifth-generation rules (DESIGN.md section 4, "Rules added after the fifth round")
_RT = " What a call returns reaches the variable the rest of the function reads (no shadowing `:=` whose outer namesake is read afterwards)."
ADDENDA5 = {
 "C01": _RT,
 "C02": " The frame a request hands to a backend writer is storage of its own (never a view of a buffer kept in the connection object; shared with C03).",
 "C03": " A frame body is never a view of a reusable buffer object (bytes.Buffer.Bytes() of a field).",
 "C04": _RT,
 "C05": _RT + " The idempotence verdict of a BATCH is decided by every child (shared with C04).",
 "C06": _RT + " The next token a sub-parser returns is examined before it is overwritten; the nesting counter is written only by the depth guard and its counterpart and is never restored by a whole-struct copy of the lexer.",
 "C07": " A statement that starts with USE is never reported as not handled (it would be forwarded to a backend connection shared with other clients).",
 "C08": _RT + " The comparison with the re-execution limit decides: where the limit is reached the host walk is told to move on.",
 "C09": _RT,
 "C11": _RT + " No index or slice without an established bound in the partial codecs (panic inventory scoped to package codecs).",
 "C12": " The re-encoded frame is storage of its own (shared with C03).",
 "C13": " A locally built answer gets a header of its own: no field of a received frame's header is written (shared with C03).",
 "C15": " A host list that was handed to listeners inside an event is never written through (no append to a re-slice of it).",
 "C16": " An event is never dropped between the control connection's reader and the control loop (shared with C14); every step of a connection attempt that waits for the peer is bounded by the caller's context; the reconnect loops end only when their context is done.",
 "C17": " A pooled connection whose set-up fails is closed on every error path; a connection attempt cannot outlive its context (shared with C16).",
 "C19": _RT + " No tls.Config of package astra enables session resumption (the custom verification runs only in full handshakes).",
}

# seventh-round rules (DESIGN.md section 4, "Rules added after the seventh round")
ADDENDA7 = {
 "C05": " A re-send the policy directs at the same host (next=false) is sent to the current host before the plan is consulted, whatever re-prepare bookkeeping the request carries.",
 "C11": " A slice of the frame body (BytesSince) starts at a position the same reader reported, never at an offset computed from lengths (which is relative to the message, not to the body).",
 "C13": " The header flags of a locally built reply are not derived from the flags of the request frame (a refused or pre-STARTUP frame may carry any flags; the reply must be encodable without a negotiated compressor).",
 "C14": " Every way the backend handshake of a connection with an event handler can succeed (READY, AUTH_SUCCESS at once or after challenges) has sent REGISTER exactly once (path simulation of the handshake steps).",
 "C17": " BytesSince start positions (shared with C11).",
 "C18": " Confinement, for the two objects the code leaves unlocked on purpose: a plain field of the per-client connection object or of the cluster object that is written after construction is accessed only in functions reached from the one goroutine serving that object (the connection's reader loop; the cluster's control loop, started once by the constructor) and from no other goroutine entry (backend readers, event fan-out, timers, `go` statements); writes guarded by a start-up flag every goroutine-side caller passes as false, and the constructor's calls before the loop is started, count as construction.",
 "C20": " The start-up connection attempt offers every contact point the configured protocol version, never a version negotiated with an earlier contact point; a reconnect offers the negotiated one (path simulation of Cluster.connect for both values of its start-up flag).",
}

NOTE_FIXES = {
 "C01": ("; the residual window in ClientConn.Send where a request stays registered after its write failed", "; a client that stops reading while staying connected (recorded C17 finding)"),
 "C08": ("version/compression of the replayed PREPARE frame", "whether the backend assigns the same id to the re-prepared statement"),
 "C15": ("fairness counts, uint32 wrap, schedules", "fairness counts, consecutive plans at the 2^32 counter boundary, schedules"),
 "C18": ("never-locked state (client.codec/keyspace, Cluster state confined to one goroutine)", "unlocked state other than the fields of the client connection object and of the cluster object (whose confinement to one goroutine is decided through the call graph, not through an execution)"),
}

NOT_APPLICABLE = {}

if __name__ == "__main__":
    main()
