#!/bin/bash
# usage: rebase_patch.sh <patch file> : re-bases a kept patch (seeded change or refactoring control)
# that no longer applies to /repo's HEAD: finds the newest ancestor commit it applies to, commits it
# there in a scratch worktree (outside /repo and /verif, removed afterwards) and cherry-picks it onto
# HEAD with a 3-way merge.  Prints OK (and rewrites the patch file) or CONFLICT (file left alone).
P=$1
WT=$(mktemp -d /tmp/rebase-XXXX)
rmdir "$WT"
git -C /repo worktree add --detach "$WT" HEAD >/dev/null 2>&1 || { echo "worktree failed"; exit 2; }
trap 'git -C /repo worktree remove --force "$WT" >/dev/null 2>&1; rm -rf "$WT"' EXIT
cd "$WT"
base=""
for c in $(git rev-list HEAD | head -60); do
  git checkout -q --detach $c
  if git apply --check "$P" 2>/dev/null; then base=$c; break; fi
done
[ -z "$base" ] && { echo "NOBASE $P"; exit 1; }
git apply "$P" && git add -A && git -c user.name=x -c user.email=x@x commit -qm tmp
pc=$(git rev-parse HEAD)
git checkout -q --detach $(git -C /repo rev-parse HEAD)
if git -c user.name=x -c user.email=x@x cherry-pick -X patience $pc >/dev/null 2>&1; then
  if go build ./... >/dev/null 2>&1 && go vet ./... >/dev/null 2>&1; then
    git diff HEAD~1 HEAD > "$P.new" && mv "$P.new" "$P" && echo "OK $P (base $(git rev-parse --short $base))"
  else
    echo "BUILDFAIL $P"; exit 1
  fi
else
  echo "CONFLICT $P: $(git diff --name-only --diff-filter=U | tr '\n' ' ')"
  git cherry-pick --abort >/dev/null 2>&1
  exit 1
fi
