#!/bin/sh
# Runs the repository's own test suite on /repo (or $1) inside a private network
# namespace (the suite binds fixed loopback ports) and prints pass/fail counts.
# Development aid for validating fix: commits; not part of any check.
D=${1:-/repo}
unshare -n sh -c "ip link set lo up; cd $D && env -u GOFLAGS -u GOSUMDB -u GOTOOLCHAIN GOPROXY=off go test -json -vet=off -count=1 -timeout 25m ./... " > /tmp/repo_tests.json 2>/tmp/repo_tests.err
python3 - <<'PY'
import json
p=f=0; fails=[]
for l in open('/tmp/repo_tests.json'):
    try: o=json.loads(l)
    except: continue
    if o.get('Test') and o.get('Action') in('pass','fail'):
        if o['Action']=='pass': p+=1
        else: f+=1; fails.append(o['Package'].split('/')[-1]+'::'+o['Test'])
print('tests passed',p,'failed',f,fails[:10])
PY
rm -f /tmp/repo_tests.json /tmp/repo_tests.err
