#!/usr/bin/env python3
"""try_patches.py <property> <patch>... : apply each patch to a scratch copy of /repo and run
the property's analysis (development aid for triaging candidate seeded changes)."""
import sys, os, re, subprocess, tempfile, shutil
sys.path.insert(0, '/verif/tools')
import selftest
prop = sys.argv[1]
for patch in sys.argv[2:]:
    tmp = tempfile.mkdtemp(prefix="cqlverif-tp-")
    try:
        tree = os.path.join(tmp, "repo")
        subprocess.check_call(["rsync", "-a", "--exclude", ".git", "/repo/", tree + "/"])
        p = subprocess.run(["patch", "-p1", "-s", "-d", tree, "-i", patch], capture_output=True, text=True)
        if p.returncode != 0:
            print(patch, "DOES NOT APPLY", p.stdout[-300:]); continue
        out = os.path.join(tmp, "verif"); os.makedirs(out)
        shutil.copy("/verif/known_findings.json", out)
        env = dict(os.environ)
        for k in ("GOSUMDB", "GOTOOLCHAIN", "GOFLAGS", "GOWORK"): env.pop(k, None)
        env["GOPROXY"] = "off"
        q = subprocess.run([os.environ.get("CQLVERIF_BIN", "/verif/bin/cqlverif"), "-p", prop, "-repo", tree, "-verif", out], capture_output=True, text=True, env=env, timeout=900)
        txt = q.stdout + q.stderr
        v = [l.strip()[:330] for l in txt.splitlines() if l.strip().startswith("violated") or "NO-VERDICT" in l]
        print(f"== {patch}: exit {q.returncode}")
        for l in v[:4]: print("   ", l)
    finally:
        shutil.rmtree(tmp, ignore_errors=True)
