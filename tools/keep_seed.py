#!/usr/bin/env python3
"""keep_seed.py <agent out dir> <seed name>: copies a confirmed seeded change into /verif/seeded/<name>/"""
import json, os, shutil, sys
out, name = sys.argv[1], sys.argv[2]
dst = f"/verif/seeded/{name}"
os.makedirs(dst, exist_ok=True)
m = json.load(open(f"{out}/meta.json"))
m["confirmed"] = {
    "how": "tools/confirm_seed.sh in a scratch git worktree of /repo (removed afterwards), inside `unshare -n`",
    "demo_on_clean_tree": "pass", "demo_with_patch": "fail", "existing_suite_with_patch": "pass",
    "base_commit": os.popen("git -C /repo rev-parse --short HEAD").read().strip(),
}
for f in os.listdir(out):
    if f != "meta.json":
        shutil.copy(f"{out}/{f}", dst)
json.dump(m, open(f"{dst}/meta.json", "w"), indent=1)
print("kept", dst)
